"""pyvc symbolic interpreter: executes the real Python AST of /repo on symbolic values.

Path exploration is by decision replay: every path is a fresh execution from the start, steered by a
list of boolean decisions; a symbolic branch condition beyond the list takes the first feasible side
and queues the other.  Nothing is merged, so each path has a concrete control flow and a concrete heap
spine with symbolic leaves.
"""
import ast
import os
import sys
from fractions import Fraction

import z3

from .values import (MISSING, Arr, BoundMethod, Builtin, Fmt, ModuleNS, Rope, ShapeTag, Sym, Unsupported, VClass,
                     VClassMethod, VDict, VFunc, VList, VObj, VProperty, VSet, VSlice, VStaticMethod, is_num, is_sym,
                     kind_of, mk, zbool, zint, zreal)


class VRaise(Exception):
    def __init__(self, exc):
        super().__init__(repr(exc))
        self.exc = exc


from .loops import LoopPathEnd  # noqa: E402


class Infeasible(Exception):
    pass


class PathLimit(Exception):
    pass


class _Return(Exception):
    def __init__(self, v):
        self.v = v


class _Break(Exception):
    pass


class _Continue(Exception):
    pass


class GeneratorContext:
    """what calling a contextlib.contextmanager-decorated function returns: the function and its arguments, run by the with statement"""

    def __init__(self, fn, args, kwargs):
        self.fn, self.args, self.kwargs = fn, list(args), dict(kwargs)


class Frame:
    __slots__ = ('locals', 'func', 'closure', 'globs', 'globalnames', 'cls_ns')

    def __init__(self, func, globs, closure=None):
        self.locals = {}
        self.func = func
        self.closure = closure
        self.globs = globs
        self.globalnames = set()
        self.cls_ns = None


class Event:
    def __init__(self, kind, **kw):
        self.kind = kind
        self.__dict__.update(kw)

    def __repr__(self):
        return f'Event({self.kind}, ' + ', '.join(f'{k}={v!r}' for k, v in self.__dict__.items() if k != 'kind') + ')'


class PathCtx:
    """state of one explored path"""
    FEAS_TIMEOUT_MS = 250

    def __init__(self, prefix=()):
        self.prefix = list(prefix)
        self.pos = 0
        self.decisions = []
        self.pc = []          # path condition (z3 Bool)
        self.facts = []       # background facts: definitions of fresh symbols, trig identities, assumed contracts
        self.alts = []
        self.events = []
        self.n_fresh = 0
        self.taint = None
        self.side = []        # side obligations raised during execution: (name, z3 Bool that must hold here, pc snapshot)
        self.trig_cache = {}
        self.ghost = {}
        self.check_feas = True

    def fresh(self, base, kind):
        self.n_fresh += 1
        name = f'{base}!{self.n_fresh}'
        if kind == 'int':
            return Sym(z3.Int(name), 'int')
        if kind == 'real':
            return Sym(z3.Real(name), 'real')
        if kind == 'bool':
            return Sym(z3.Bool(name), 'bool')
        raise Unsupported(kind)

    def feasible(self, extra):
        s = z3.Solver()
        s.set('timeout', self.FEAS_TIMEOUT_MS)
        for f in self.facts:
            s.add(f)
        for p in self.pc:
            s.add(p)
        s.add(extra)
        r = s.check()
        return r != z3.unsat

    def branch(self, cond):
        """decide a symbolic condition (z3 Bool); returns the Python bool taken on this path"""
        cond = z3.simplify(cond)
        if z3.is_true(cond):
            return True
        if z3.is_false(cond):
            return False
        if self.pos < len(self.prefix):
            d = self.prefix[self.pos]
        else:
            if self.check_feas:
                ft = self.feasible(cond)
                ff = self.feasible(z3.Not(cond))
            else:
                ft = ff = True
            if ft and ff:
                d = True
                self.alts.append(self.decisions + [False])
            elif ft:
                d = True
            elif ff:
                d = False
            else:
                raise Infeasible()
        self.decisions.append(d)
        self.pos += 1
        self.pc.append(cond if d else z3.Not(cond))
        return d

    def assume(self, cond):
        self.pc.append(cond)

    def fact(self, cond):
        self.facts.append(cond)

    def event(self, kind, **kw):
        self.events.append(Event(kind, **kw))

    def oblige(self, name, cond, soft=False):
        """a side obligation (e.g. numpy slice bounds in range) that must hold at this point of the path;
        soft = a limit of the model rather than of the code: if it does not hold the path is undecided, not violated"""
        self.side.append((('soft:' if soft else '') + name, cond, list(self.pc) ))


def explore(run, max_paths=4000):
    """run(ctx) -> outcome; returns list of (ctx, outcome)"""
    work = [[]]
    results = []
    while work:
        prefix = work.pop()
        ctx = PathCtx(prefix)
        try:
            out = run(ctx)
        except Infeasible:
            out = ('infeasible', None)
        except LoopPathEnd as e:
            out = ('partial', str(e))
        except Unsupported as e:
            out = ('unsupported', str(e))
        except RecursionError:
            out = ('unsupported', 'recursion limit')
        results.append((ctx, out))
        work.extend(ctx.alts)
        if len(results) > max_paths:
            raise PathLimit(f'more than {max_paths} paths')
    return results


BINOPS = {ast.Add: '+', ast.Sub: '-', ast.Mult: '*', ast.Div: '/', ast.FloorDiv: '//', ast.Mod: '%', ast.Pow: '**',
          ast.LShift: '<<', ast.RShift: '>>', ast.BitOr: '|', ast.BitAnd: '&', ast.BitXor: '^', ast.MatMult: '@'}
DUNDER = {'+': 'add', '-': 'sub', '*': 'mul', '/': 'truediv', '//': 'floordiv', '%': 'mod', '**': 'pow',
          '<<': 'lshift', '>>': 'rshift', '|': 'or', '&': 'and', '^': 'xor', '@': 'matmul'}
CMPOPS = {ast.Eq: '==', ast.NotEq: '!=', ast.Lt: '<', ast.LtE: '<=', ast.Gt: '>', ast.GtE: '>='}
CMPDUNDER = {'==': 'eq', '!=': 'ne', '<': 'lt', '<=': 'le', '>': 'gt', '>=': 'ge'}
CMPSWAP = {'==': '==', '!=': '!=', '<': '>', '<=': '>=', '>': '<', '>=': '<='}


class NotImpl:
    def __repr__(self):
        return 'NotImplemented'


NOTIMPL = NotImpl()


class Interp:
    def __init__(self, repo, extra_roots=()):
        self.repo = repo
        self.roots = [repo] + list(extra_roots)
        self.modules = {}
        self.ctx = None
        self.contracts = {}       # qualname -> contract used at call sites (functional)
        self.no_contract = set()  # qualnames whose contract must not be used (the function under verification)
        self.depth = 0
        from . import builtins_ as B
        self.B = B
        self.builtins = B.make_builtins(self)
        self.ext_modules = B.make_ext_modules(self)
        self.loading = []
        self.files_used = set()
        self.pyx_reports = {}
        self.loop_specs = {}      # 'function#ordinal' -> invariant function (sidecar loop contracts)
        self.call_hooks = {}
        self.trace = None

    # ------------------------------------------------------------------ modules
    def find_module_file(self, name):
        rel = name.replace('.', '/')
        for root in self.roots:
            for cand in (os.path.join(root, rel + '.py'), os.path.join(root, rel, '__init__.py')):
                if os.path.exists(cand):
                    return cand
        return None

    def import_module(self, name):
        if name in self.modules:
            return self.modules[name]
        if name in self.ext_modules:
            m = self.ext_modules[name]
            if isinstance(m, str):          # model written in interpreted python
                mod = self.load_file(name, m)
                return mod
            self.modules[name] = m
            return m
        path = self.find_module_file(name)
        if path is None:
            raise Unsupported(f'import of unmodelled module {name}')
        return self.load_file(name, path)

    def load_pyx(self, relpath):
        """a Cython kernel: its Python subset is extracted mechanically from the .pyx text (pyvc/pyx.py) on every run"""
        name = 'pyx:' + relpath[:-4]
        if name in self.modules:
            return self.modules[name]
        from . import pyx as PX
        path = os.path.join(self.repo, relpath)
        src = open(path).read()
        try:
            text, report = PX.extract(src)
        except PX.PyxError as e:
            raise Unsupported(f'{relpath}: {e}')
        self.pyx_reports[relpath] = {'report': report, 'diff': PX.diff(src, text, relpath)}
        pre = {}
        mathmod = self.import_module('math')
        for ex in report['extern']:
            for n in ex['names']:
                if n not in mathmod.ns:
                    raise Unsupported(f'{relpath}: extern function {n} has no model')
                pre[n] = mathmod.ns[n]
        for sib in report['sibling_imports']:
            sm = self.load_pyx(os.path.join(os.path.dirname(relpath), sib['module'] + '.pyx'))
            for n in sib['names']:
                pre[n] = sm.ns[n]
        return self.load_file(name, path, src=text, pre=pre)

    def load_file(self, name, path, src=None, pre=None):
        src = open(path).read() if src is None else src
        tree = ast.parse(src, filename=path)
        mod = ModuleNS(name, dict({'__name__': name, '__file__': path}, **(pre or {})))
        self.modules[name] = mod
        self.files_used.add(path)
        frame = Frame(None, mod.ns)
        saved = self.ctx
        if self.ctx is None:
            self.ctx = PathCtx()
            self.ctx.check_feas = False
        try:
            self.loading.append(name)
            self.exec_block(tree.body, frame, module_level=True)
        except BaseException:
            self.modules.pop(name, None)
            raise
        finally:
            self.loading.pop()
            self.ctx = saved
        self.mark_static(mod)
        return mod

    def mark_static(self, mod):
        seen = set()

        def rec(v):
            if id(v) in seen:
                return
            seen.add(id(v))
            if isinstance(v, (VDict, VList, VObj, Arr, VSet)):
                v.static = True
                v.old = True
                if isinstance(v, VDict):
                    for x in v.d.values():
                        rec(x)
                elif isinstance(v, VList):
                    for x in v.l:
                        rec(x)
                elif isinstance(v, VObj):
                    rec(v.fields)
                    if v.dictdata is not None:
                        rec(v.dictdata)
                    if v.listdata is not None:
                        rec(v.listdata)
            elif isinstance(v, VClass) and not v.builtin:
                for x in v.ns.values():
                    rec(x)
            elif isinstance(v, tuple):
                for x in v:
                    rec(x)
        for k, v in mod.ns.items():
            if isinstance(v, VClass) and v.module != mod.name:
                continue
            rec(v)

    def get(self, dotted):
        """resolve 'pkg.mod::Class.attr' or 'pkg.mod::func'"""
        modname, _, path = dotted.partition('::')
        if modname.endswith('.pyx'):
            mod = self.load_pyx(modname)
        else:
            if modname.endswith('.py'):
                modname = modname[:-3].replace('/', '.')
            mod = self.import_module(modname)
        v = mod
        for part in path.split('.') if path else []:
            if isinstance(v, ModuleNS):
                v = v.ns[part]
            elif isinstance(v, VClass):
                r, _ = v.lookup(part)
                if r is MISSING:
                    raise KeyError(dotted)
                v = r
            else:
                raise KeyError(dotted)
        return v

    # ------------------------------------------------------------------ errors
    def throw(self, clsname, *args):
        cls = self.builtins[clsname]
        raise VRaise(self.instantiate(cls, list(args), {}))

    # ------------------------------------------------------------------ statements
    def exec_block(self, stmts, frame, module_level=False):
        for s in stmts:
            self.exec_stmt(s, frame)

    def exec_stmt(self, s, frame):
        m = getattr(self, 's_' + type(s).__name__, None)
        if m is None:
            raise Unsupported(f'statement {type(s).__name__} at line {getattr(s, "lineno", "?")}')
        m(s, frame)

    def s_Expr(self, s, f):
        self.eval(s.value, f)

    def s_Pass(self, s, f):
        pass

    def s_Global(self, s, f):
        f.globalnames.update(s.names)

    def s_Nonlocal(self, s, f):
        raise Unsupported('nonlocal')

    def s_Assert(self, s, f):
        if not self.truth(self.eval(s.test, f)):
            self.throw('AssertionError')

    def s_Import(self, s, f):
        for a in s.names:
            if a.asname:
                self.store_name(a.asname, self.import_module(a.name), f)
            else:
                top = a.name.split('.')[0]
                self.import_module(a.name)
                self.store_name(top, self.import_module(top), f)

    def s_ImportFrom(self, s, f):
        modname = s.module or ''
        if s.level:
            pkg = f.globs.get('__name__', '')
            isinit = f.globs.get('__file__', '').endswith('__init__.py')
            parts = pkg.split('.')
            up = s.level - (1 if isinit else 0)
            base = parts[:len(parts) - up] if up else parts
            modname = '.'.join(base + ([modname] if modname else []))
        mod = self.import_module(modname)
        for a in s.names:
            if a.name == '*':
                names = mod.ns.get('__all__')
                keys = [x for x in (names.l if isinstance(names, VList) else mod.ns) if not str(x).startswith('_')]
                for k in keys:
                    if k in mod.ns:
                        self.store_name(k, mod.ns[k], f)
                continue
            if a.name in mod.ns:
                v = mod.ns[a.name]
            else:
                sub = modname + '.' + a.name
                try:
                    v = self.import_module(sub)
                except Unsupported:
                    raise Unsupported(f'cannot import {a.name} from {modname}')
            self.store_name(a.asname or a.name, v, f)

    def s_FunctionDef(self, s, f):
        fn = self.make_function(s, f)
        for d in reversed(s.decorator_list):
            dec = self.eval(d, f)
            fn = self.call(dec, [fn], {})
        self.store_name(s.name, fn, f)

    def make_function(self, node, f, name=None):
        closure = f if f.func is not None else None
        fn = VFunc(node, f.globs, closure=closure, name=name, module=f.globs.get('__name__'))
        a = node.args
        fn.defaults = [self.eval(d, f) for d in a.defaults]
        fn.kwdefaults = [None if d is None else self.eval(d, f) for d in a.kw_defaults]
        if f.cls_ns is not None:
            fn.defcls = f.cls_ns          # placeholder dict; replaced by the class object once built
            fn.qualname = f'{f.cls_ns["__qualname__"]}.{fn.name}'
        return fn

    def s_ClassDef(self, s, f):
        bases = [self.eval(b, f) for b in s.bases]
        bases = [b for b in bases if b is not None]
        for b in bases:
            if not isinstance(b, VClass):
                raise Unsupported(f'base class {b!r} of {s.name}')
        if not bases:
            bases = [self.builtins['object']]
        cf = Frame(f.func, f.globs, f if f.func is not None else f.closure)      # a class in a function body: methods see that function's locals
        cf.cls_ns = {'__qualname__': s.name, '__module__': f.globs.get('__name__')}
        cf.locals = cf.cls_ns
        self.exec_block(s.body, cf)
        ns = cf.cls_ns
        cls = VClass(s.name, bases, ns, module=f.globs.get('__name__'))
        for k, v in list(ns.items()):
            fn = v.func if isinstance(v, (VClassMethod, VStaticMethod)) else v
            if isinstance(fn, VProperty):
                for g in (fn.fget, fn.fset, fn.fdel):
                    if isinstance(g, VFunc) and g.defcls is ns:
                        g.defcls = cls
            if isinstance(fn, VFunc) and fn.defcls is ns:
                fn.defcls = cls
            if isinstance(v, VObj):
                sn, _ = v.cls.lookup('__set_name__')
                if sn is not MISSING:
                    self.call(sn, [v, cls, k], {})
        isub, owner = cls.lookup('__init_subclass__')
        for kw in s.keywords:
            if kw.arg == 'metaclass':
                continue
        for d in reversed(s.decorator_list):
            dec = self.eval(d, f)
            cls = self.call(dec, [cls], {})
        self.store_name(s.name, cls, f)

    def s_Return(self, s, f):
        raise _Return(None if s.value is None else self.eval(s.value, f))

    def s_Break(self, s, f):
        raise _Break()

    def s_Continue(self, s, f):
        raise _Continue()

    def s_Delete(self, s, f):
        for t in s.targets:
            if isinstance(t, ast.Name):
                f.locals.pop(t.id, None)
            elif isinstance(t, ast.Subscript):
                o = self.eval(t.value, f)
                k = self.eval_index(t.slice, f)
                self.delitem(o, k)
            elif isinstance(t, ast.Attribute):
                o = self.eval(t.value, f)
                self.delattr(o, t.attr)
            else:
                raise Unsupported('del target')

    def s_Assign(self, s, f):
        v = self.eval(s.value, f)
        for t in s.targets:
            self.assign(t, v, f)

    def s_AnnAssign(self, s, f):
        if s.value is not None:
            self.assign(s.target, self.eval(s.value, f), f)
        elif f.cls_ns is not None and isinstance(s.target, ast.Name):
            f.cls_ns.setdefault('__annotations__', {})[s.target.id] = ast.unparse(s.annotation)

    def s_AugAssign(self, s, f):
        op = BINOPS[type(s.op)]
        t = s.target
        if isinstance(t, ast.Name):
            cur = self.load_name(t.id, f)
            new = self.binop(op, cur, self.eval(s.value, f), inplace=True)
            self.store_name(t.id, new, f)
        elif isinstance(t, ast.Attribute):
            o = self.eval(t.value, f)
            cur = self.getattr(o, t.attr)
            new = self.binop(op, cur, self.eval(s.value, f), inplace=True)
            self.setattr(o, t.attr, new)
        elif isinstance(t, ast.Subscript):
            o = self.eval(t.value, f)
            k = self.eval_index(t.slice, f)
            cur = self.getitem(o, k)
            new = self.binop(op, cur, self.eval(s.value, f), inplace=True)
            self.setitem(o, k, new)
        else:
            raise Unsupported('augassign target')

    def assign(self, t, v, f):
        if isinstance(t, ast.Name):
            self.store_name(t.id, v, f)
        elif isinstance(t, (ast.Tuple, ast.List)):
            items = self.iterate(v)
            stars = [i for i, e in enumerate(t.elts) if isinstance(e, ast.Starred)]
            if stars:
                i = stars[0]
                n_after = len(t.elts) - i - 1
                if len(items) < len(t.elts) - 1:
                    self.throw('ValueError', 'not enough values to unpack')
                for e, x in zip(t.elts[:i], items[:i]):
                    self.assign(e, x, f)
                self.assign(t.elts[i].value, VList(items[i:len(items) - n_after]), f)
                for e, x in zip(t.elts[i + 1:], items[len(items) - n_after:]):
                    self.assign(e, x, f)
            else:
                if len(items) != len(t.elts):
                    self.throw('ValueError', f'cannot unpack {len(items)} values into {len(t.elts)}')
                for e, x in zip(t.elts, items):
                    self.assign(e, x, f)
        elif isinstance(t, ast.Attribute):
            self.setattr(self.eval(t.value, f), t.attr, v)
        elif isinstance(t, ast.Subscript):
            o = self.eval(t.value, f)
            self.setitem(o, self.eval_index(t.slice, f), v)
        else:
            raise Unsupported(f'assign target {type(t).__name__}')

    def s_If(self, s, f):
        if self.truth(self.eval(s.test, f)):
            self.exec_block(s.body, f)
        else:
            self.exec_block(s.orelse, f)

    def loop_key(self, s, f):
        fn = f.func
        if fn is None or not hasattr(fn, 'node'):
            return None
        ords = getattr(fn, '_loop_ords', None)
        if ords is None:
            ords = {}
            k = 0
            for n in ast.walk(fn.node):
                if isinstance(n, (ast.For, ast.While)):
                    ords[id(n)] = None
            # ast.walk is breadth-first: order loops by source position instead
            loops = sorted((n for n in ast.walk(fn.node) if isinstance(n, (ast.For, ast.While))), key=lambda n: (n.lineno, n.col_offset))
            ords = {id(n): k for k, n in enumerate(loops)}
            fn._loop_ords = ords
        return f'{fn.name}#{ords.get(id(s))}'

    def s_For(self, s, f):
        key = self.loop_key(s, f)
        spec = self.loop_specs.get(key) if key is not None else None
        if spec is not None and isinstance(s.iter, ast.Call) and isinstance(s.iter.func, ast.Name) and s.iter.func.id == 'range' \
                and len(s.iter.args) == 1 and not s.iter.keywords and isinstance(s.target, ast.Name) and not s.orelse:
            n = self.eval(s.iter.args[0], f)
            if isinstance(n, Sym):
                from . import loops as L
                return L.for_with_invariant(self, s, f, key, spec, n)
        items = self.iterate(self.eval(s.iter, f), lazy_ok=True)
        broke = False
        for x in items:
            self.assign(s.target, x, f)
            try:
                self.exec_block(s.body, f)
            except _Break:
                broke = True
                break
            except _Continue:
                continue
        if not broke:
            self.exec_block(s.orelse, f)

    def s_While(self, s, f):
        n = 0
        while self.truth(self.eval(s.test, f)):
            n += 1
            if n > 200:
                raise Unsupported('while loop bound exceeded')
            try:
                self.exec_block(s.body, f)
            except _Break:
                return
            except _Continue:
                continue
        self.exec_block(s.orelse, f)

    def s_Raise(self, s, f):
        if s.exc is None:
            cur = getattr(f, '_cur_exc', None) or self._cur_exc
            raise VRaise(cur)
        e = self.eval(s.exc, f)
        if isinstance(e, VClass):
            e = self.instantiate(e, [], {})
        if s.cause is not None:
            self.eval(s.cause, f)
        raise VRaise(e)

    _cur_exc = None

    def s_Try(self, s, f):
        try:
            try:
                self.exec_block(s.body, f)
            except VRaise as vr:
                exc = vr.exc
                for h in s.handlers:
                    if h.type is None or self.exc_matches(exc, self.eval(h.type, f)):
                        if h.name:
                            self.store_name(h.name, exc, f)
                        saved = self._cur_exc
                        self._cur_exc = exc
                        try:
                            self.exec_block(h.body, f)
                        finally:
                            self._cur_exc = saved
                        break
                else:
                    raise
            else:
                self.exec_block(s.orelse, f)
        finally:
            if s.finalbody:
                self.exec_block(s.finalbody, f)

    def exc_matches(self, exc, spec):
        if isinstance(spec, tuple):
            return any(self.exc_matches(exc, x) for x in spec)
        if isinstance(spec, VClass):
            return isinstance(exc, VObj) and exc.cls.issub(spec)
        raise Unsupported('except spec')

    def s_With(self, s, f):
        if len(s.items) == 1:
            m0 = self.eval(s.items[0].context_expr, f)
            if isinstance(m0, GeneratorContext):
                return self.with_generator_context(m0, s, f)
            first = [m0]
        else:
            first = []
        mgrs = []
        for k, item in enumerate(s.items):
            m = first[0] if (k == 0 and first) else self.eval(item.context_expr, f)
            if isinstance(m, GeneratorContext):
                raise Unsupported('several context managers in one with statement, one of them generator based')
            enter = self.getattr(m, '__enter__')
            v = self.call(enter, [], {})
            if item.optional_vars is not None:
                self.assign(item.optional_vars, v, f)
            mgrs.append(m)
        try:
            self.exec_block(s.body, f)
        except VRaise as vr:
            suppressed = False
            for m in reversed(mgrs):
                if self.truth(self.call(self.getattr(m, '__exit__'), [vr.exc.cls, vr.exc, None], {})):
                    suppressed = True
            if not suppressed:
                raise
        else:
            for m in reversed(mgrs):
                self.call(self.getattr(m, '__exit__'), [None, None, None], {})

    def with_generator_context(self, m, s, f):
        """`with cm(...) as v: BODY` for a function decorated with contextlib.contextmanager: the generator function runs up to its
        `yield`, the BODY runs there (an exception of the BODY is raised at the yield, as `gen.throw` does), the function then runs to
        its end.  return / break / continue in the BODY take effect after the function has finished, as they do in Python."""
        item = s.items[0]
        state = {'yields': 0, 'pending': None}

        def at_yield(value):
            state['yields'] += 1
            if state['yields'] > 1:
                self.throw('RuntimeError', "generator didn't stop")
            if item.optional_vars is not None:
                self.assign(item.optional_vars, value, f)
            try:
                self.exec_block(s.body, f)
            except (_Return, _Break, _Continue) as c:
                state['pending'] = c
            return None
        fn, args, kwargs = m.fn, m.args, m.kwargs
        loc = self.bind_args(fn, args, kwargs)
        fr = Frame(fn, fn.globs, fn.closure)
        fr.locals = loc
        fr.locals['$at_yield'] = at_yield
        try:
            self.exec_block(fn.node.body, fr)
        except _Return:
            pass
        if state['yields'] == 0:
            self.throw('RuntimeError', "generator didn't yield")
        if state['pending'] is not None:
            raise state['pending']

    # ------------------------------------------------------------------ names
    def load_name(self, name, f):
        fr = f
        if name not in f.globalnames:
            if name in fr.locals:
                return fr.locals[name]
            c = fr.closure
            while c is not None:
                if name in c.locals and c.cls_ns is None:
                    return c.locals[name]
                c = c.closure
        if name in f.globs:
            return f.globs[name]
        if name in self.builtins:
            return self.builtins[name]
        self.throw('NameError', f"name '{name}' is not defined")

    def store_name(self, name, v, f):
        if f.func is None and f.cls_ns is None or name in f.globalnames:
            if f.globs.get('__static_loaded__') and name in f.globs:
                self.ctx.event('frame', target=f'module global {f.globs.get("__name__")}.{name}', where='assignment')
            f.globs[name] = v
        else:
            f.locals[name] = v

    # ------------------------------------------------------------------ expressions
    def eval(self, e, f):
        m = getattr(self, 'e_' + type(e).__name__, None)
        if m is None:
            raise Unsupported(f'expression {type(e).__name__} at line {getattr(e, "lineno", "?")}')
        return m(e, f)

    def e_Constant(self, e, f):
        if e.value is Ellipsis:
            return Ellipsis
        return e.value

    def e_Name(self, e, f):
        return self.load_name(e.id, f)

    def e_Attribute(self, e, f):
        return self.getattr(self.eval(e.value, f), e.attr)

    def e_Subscript(self, e, f):
        return self.getitem(self.eval(e.value, f), self.eval_index(e.slice, f))

    def eval_index(self, sl, f):
        if isinstance(sl, ast.Slice):
            return VSlice(None if sl.lower is None else self.eval(sl.lower, f),
                          None if sl.upper is None else self.eval(sl.upper, f),
                          None if sl.step is None else self.eval(sl.step, f))
        if isinstance(sl, ast.Tuple):
            return tuple(self.eval_index(x, f) for x in sl.elts)
        return self.eval(sl, f)

    def e_Slice(self, e, f):
        return self.eval_index(e, f)

    def e_Tuple(self, e, f):
        return tuple(self.eval_seq(e.elts, f))

    def e_List(self, e, f):
        return VList(self.eval_seq(e.elts, f))

    def e_Set(self, e, f):
        return VSet(self.eval_seq(e.elts, f))

    def eval_seq(self, elts, f):
        out = []
        for x in elts:
            if isinstance(x, ast.Starred):
                out.extend(self.iterate(self.eval(x.value, f)))
            else:
                out.append(self.eval(x, f))
        return out

    def e_Dict(self, e, f):
        d = VDict()
        for k, v in zip(e.keys, e.values):
            if k is None:
                src = self.eval(v, f)
                for kk, vv in self.dict_items(src):
                    d.d[kk] = vv
            else:
                d.d[self.hashable(self.eval(k, f))] = self.eval(v, f)
        return d

    def hashable(self, k):
        if isinstance(k, (str, int, float, bool, type(None), tuple, VClass, Builtin, VFunc, Fraction, frozenset)):
            return k
        if isinstance(k, (VObj,)):
            return k
        if isinstance(k, Sym):
            raise Unsupported('symbolic dict key')
        if isinstance(k, (VList, VDict, VSet)):
            self.throw('TypeError', 'unhashable type')
        return k

    def e_IfExp(self, e, f):
        return self.eval(e.body, f) if self.truth(self.eval(e.test, f)) else self.eval(e.orelse, f)

    def e_Lambda(self, e, f):
        return self.make_function(e, f, name='<lambda>')

    def e_NamedExpr(self, e, f):
        v = self.eval(e.value, f)
        self.assign(e.target, v, f)
        return v

    def e_Starred(self, e, f):
        raise Unsupported('starred expression here')

    def e_JoinedStr(self, e, f):
        parts = []
        for v in e.values:
            if isinstance(v, ast.Constant):
                parts.append(v.value)
            else:
                parts.append(self.e_FormattedValue(v, f))
        if all(isinstance(p, str) for p in parts):
            return ''.join(parts)
        return Rope(parts)

    def e_FormattedValue(self, e, f):
        v = self.eval(e.value, f)
        spec = ''
        if e.format_spec is not None:
            spec = self.e_JoinedStr(e.format_spec, f)
        conv = e.conversion
        return self.B.format_value(self, v, spec, conv)

    def e_BoolOp(self, e, f):
        is_and = isinstance(e.op, ast.And)
        v = None
        acc = []      # symbolic bools merged without forking
        for i, sub in enumerate(e.values):
            last = i == len(e.values) - 1
            if acc:
                # evaluate the next operand under the assumption that evaluation got here
                guard = z3.And(*acc) if is_and else z3.And(*[z3.Not(a) for a in acc])
                ndec = len(self.ctx.decisions)
                self.ctx.pc.append(guard)
                unreachable = False
                try:
                    v = self.eval(sub, f)
                except Infeasible:
                    # the operand cannot be reached on this path (its guard contradicts the path condition): the value of the
                    # whole expression is decided by the operands already evaluated
                    unreachable = True
                finally:
                    # remove the guard (it is the element we pushed, possibly followed by decisions)
                    idx = len(self.ctx.pc) - 1 - (len(self.ctx.decisions) - ndec)
                    moved = self.ctx.pc[idx + 1:]
                    del self.ctx.pc[idx:]
                    if moved:
                        # decisions were taken under the guard: keep them guarded
                        self.ctx.pc.extend(z3.Implies(guard, m) for m in moved)
                if unreachable:
                    return mk(z3.And(*acc) if is_and else z3.Or(*acc), 'bool')
            else:
                v = self.eval(sub, f)
            if isinstance(v, Sym) and v.kind == 'bool':
                if last:
                    acc.append(v.e)
                    return mk(z3.And(*acc) if is_and else z3.Or(*acc), 'bool')
                acc.append(v.e)
                continue
            if acc:
                # mixed: concrete/other value after symbolic bools
                if isinstance(v, bool):
                    if is_and and not v:
                        # a and False -> a if falsy else False: value is falsy either way
                        return mk(z3.BoolVal(False), 'bool') if True else v
                    if (not is_and) and v:
                        # a or True
                        if last or True:
                            # result is a if a truthy else True -> truthy either way; as bool: True
                            return True
                    if last:
                        return mk(z3.And(*acc) if is_and else z3.Or(*acc), 'bool')
                    continue
                # non-bool operand: fall back to forking on the accumulated condition
                cond = z3.And(*acc) if is_and else z3.Or(*acc)
                t = self.ctx.branch(cond)
                if is_and:
                    if not t:
                        return False
                else:
                    if t:
                        return True
                acc = []
                if last:
                    return v
                if self.truth(v) != is_and:
                    return v
                continue
            if last:
                return v
            t = self.truth(v)
            if is_and and not t:
                return v
            if (not is_and) and t:
                return v
        return v

    def e_UnaryOp(self, e, f):
        v = self.eval(e.operand, f)
        if isinstance(e.op, ast.Not):
            if isinstance(v, Sym):
                return mk(z3.Not(zbool(v)), 'bool')
            return not self.truth(v)
        if isinstance(e.op, ast.USub):
            return self.neg(v)
        if isinstance(e.op, ast.UAdd):
            return v
        if isinstance(e.op, ast.Invert):
            if isinstance(v, bool):
                return -2 if v else -1
            if isinstance(v, Sym) and v.kind == 'bool':
                # numpy bool_ semantics (~np.bool_ is logical not); python bool ~ gives int: treat symbolic bools as numpy
                return mk(z3.Not(v.e), 'bool')
            if isinstance(v, Arr):
                return self.B.arr_map(self, lambda x: self.e_invert_scalar(x), v)
            if isinstance(v, int):
                return ~v
            raise Unsupported('~ operand')
        raise Unsupported('unary op')

    def e_invert_scalar(self, x):
        if isinstance(x, bool):
            return not x
        if isinstance(x, Sym) and x.kind == 'bool':
            return mk(z3.Not(x.e), 'bool')
        raise Unsupported('~ on non-bool array')

    def neg(self, v):
        if isinstance(v, VObj):
            m = self.find_method(v, '__neg__')
            if m is not None:
                return self.call(m, [], {})
        if isinstance(v, Arr):
            return self.B.arr_map(self, self.neg, v)
        if isinstance(v, Sym):
            if v.kind == 'int':
                return mk(-v.e, 'int')
            if v.kind == 'real':
                return mk(-v.e, 'real')
            return mk(-zint(v), 'int')
        if isinstance(v, (int, float, Fraction)):
            return -v
        self.throw('TypeError', 'bad operand type for unary -')

    def e_BinOp(self, e, f):
        return self.binop(BINOPS[type(e.op)], self.eval(e.left, f), self.eval(e.right, f))

    def e_Compare(self, e, f):
        left = self.eval(e.left, f)
        result = None
        for op, rhs in zip(e.ops, e.comparators):
            right = self.eval(rhs, f)
            r = self.compare_op(op, left, right)
            if result is None:
                result = r
            else:
                result = self.and_values(result, r)
            if len(e.ops) > 1 and not isinstance(r, Sym) and not isinstance(r, Arr) and not self.truth(r):
                return r
            left = right
        return result

    def and_values(self, a, b):
        if isinstance(a, Sym) or isinstance(b, Sym):
            return mk(z3.And(zbool(a), zbool(b)), 'bool')
        return a and b

    def compare_op(self, op, a, b):
        if isinstance(op, ast.Is):
            return self.is_same(a, b)
        if isinstance(op, ast.IsNot):
            return not self.is_same(a, b)
        if isinstance(op, ast.In):
            return self.contains(b, a)
        if isinstance(op, ast.NotIn):
            r = self.contains(b, a)
            if isinstance(r, Sym):
                return mk(z3.Not(r.e), 'bool')
            return not r
        return self.compare(CMPOPS[type(op)], a, b)

    def is_same(self, a, b):
        if a is None or b is None:
            return a is b
        if isinstance(a, bool) and isinstance(b, bool):
            return a == b
        if isinstance(a, (VObj, VDict, VList, VClass, VFunc, Builtin, Arr, ModuleNS, VSet)) or \
                isinstance(b, (VObj, VDict, VList, VClass, VFunc, Builtin, Arr, ModuleNS, VSet)):
            return a is b
        if isinstance(a, BoundMethod) and isinstance(b, BoundMethod):
            return a.self_ is b.self_ and a.func is b.func
        if isinstance(a, Sym) or isinstance(b, Sym):
            if isinstance(a, Sym) and isinstance(b, Sym) and a.e.eq(b.e):
                return True
            return False
        if isinstance(a, (int, str)) and type(a) is type(b):
            return a == b
        return a is b

    # generators / comprehensions (eager)
    def comp(self, gens, f, emit):
        cf = Frame(f.func, f.globs, f)
        cf.func = f.func or True
        cf.globalnames = f.globalnames

        def rec(i):
            if i == len(gens):
                emit(cf)
                return
            g = gens[i]
            for x in self.iterate(self.eval(g.iter, cf if i else f), lazy_ok=True):
                self.assign(g.target, x, cf)
                if all(self.truth(self.eval(c, cf)) for c in g.ifs):
                    rec(i + 1)
        rec(0)

    def e_ListComp(self, e, f):
        out = []
        self.comp(e.generators, f, lambda cf: out.append(self.eval(e.elt, cf)))
        return VList(out)

    def e_GeneratorExp(self, e, f):
        return self.e_ListComp(e, f)

    def e_SetComp(self, e, f):
        out = []
        self.comp(e.generators, f, lambda cf: out.append(self.eval(e.elt, cf)))
        return VSet(out)

    def e_DictComp(self, e, f):
        d = VDict()

        def emit(cf):
            k = self.hashable(self.eval(e.key, cf))
            d.d[k] = self.eval(e.value, cf)
        self.comp(e.generators, f, emit)
        return d

    def e_Call(self, e, f):
        fn = self.eval(e.func, f)
        args = []
        for a in e.args:
            if isinstance(a, ast.Starred):
                args.extend(self.iterate(self.eval(a.value, f)))
            else:
                args.append(self.eval(a, f))
        kwargs = {}
        for k in e.keywords:
            if k.arg is None:
                for kk, vv in self.dict_items(self.eval(k.value, f)):
                    kwargs[kk] = vv
            else:
                kwargs[k.arg] = self.eval(k.value, f)
        # zero-argument super()
        if isinstance(fn, Builtin) and fn.name == 'super' and not args:
            fr = f
            while fr is not None and not isinstance(fr.func, VFunc):
                fr = fr.closure
            if fr is None or fr.func.defcls is None:
                raise Unsupported('super() outside method')
            first = fr.func.node.args.args[0].arg
            return self.B.make_super(self, fr.func.defcls, fr.locals[first])
        return self.call(fn, args, kwargs)

    # ------------------------------------------------------------------ calls
    def call(self, fn, args, kwargs):
        self.depth += 1
        if self.depth > 120:
            self.depth -= 1
            raise Unsupported('call depth exceeded')
        try:
            return self._call(fn, args, kwargs)
        finally:
            self.depth -= 1

    def _call(self, fn, args, kwargs):
        if isinstance(fn, BoundMethod):
            return self._call(fn.func, [fn.self_] + list(args), kwargs)
        if isinstance(fn, Builtin):
            return fn.fn(self, *args, **kwargs)
        if isinstance(fn, VFunc):
            hook = self.call_hooks.get(fn.qualname) if self.call_hooks else None
            if hook is not None:
                r = hook(self, fn, args, kwargs)
                if r is not NOTIMPL:
                    return r
            return self.call_function(fn, args, kwargs)
        if isinstance(fn, VClass):
            return self.instantiate(fn, args, kwargs)
        if isinstance(fn, VObj):
            m = self.find_method(fn, '__call__')
            if m is not None:
                return self._call(m, args, kwargs)
        if isinstance(fn, VStaticMethod):
            return self._call(fn.func, args, kwargs)
        self.throw('TypeError', f'{fn!r} is not callable')

    def bind_args(self, fn, args, kwargs):
        a = fn.node.args
        params = [p.arg for p in a.posonlyargs + a.args]
        loc = {}
        args = list(args)
        kwargs = dict(kwargs)
        n = len(params)
        if len(args) > n and a.vararg is None:
            self.throw('TypeError', f'{fn.name}() takes {n} positional arguments but {len(args)} were given')
        for i, p in enumerate(params):
            if i < len(args):
                loc[p] = args[i]
        if a.vararg is not None:
            loc[a.vararg.arg] = tuple(args[n:])
        posonly = {p.arg for p in a.posonlyargs}
        for p in params[len(args):] if len(args) < n else []:
            if p in kwargs and p not in posonly:
                loc[p] = kwargs.pop(p)
        for p in params[:len(args)]:
            if p in kwargs and p not in posonly:
                self.throw('TypeError', f'{fn.name}() got multiple values for argument {p!r}')
        nd = len(fn.defaults)
        for i, p in enumerate(params):
            if p not in loc:
                j = i - (n - nd)
                if j >= 0:
                    loc[p] = fn.defaults[j]
                else:
                    self.throw('TypeError', f'{fn.name}() missing required argument {p!r}')
        for p, d in zip(a.kwonlyargs, fn.kwdefaults):
            if p.arg in kwargs:
                loc[p.arg] = kwargs.pop(p.arg)
            elif d is not None or True:
                if d is None and p.arg not in kwargs:
                    # kw_defaults None means required, but a default of None evaluates to None too; distinguish by ast
                    idx = a.kwonlyargs.index(p)
                    if a.kw_defaults[idx] is None:
                        self.throw('TypeError', f'{fn.name}() missing keyword-only argument {p.arg!r}')
                loc[p.arg] = d
        if a.kwarg is not None:
            loc[a.kwarg.arg] = VDict(kwargs)
        elif kwargs:
            self.throw('TypeError', f'{fn.name}() got an unexpected keyword argument {next(iter(kwargs))!r}')
        return loc

    def call_function(self, fn, args, kwargs):
        loc = self.bind_args(fn, args, kwargs)
        fr = Frame(fn, fn.globs, fn.closure)
        fr.locals = loc
        if self.trace is not None:
            self.trace(fn, loc)
        if isinstance(fn.node, ast.Lambda):
            return self.eval(fn.node.body, fr)
        if self.is_generator(fn.node):
            return self.run_generator(fn, fr)
        try:
            self.exec_block(fn.node.body, fr)
        except _Return as r:
            return r.v
        return None

    _gen_cache = {}

    def is_generator(self, node):
        r = self._gen_cache.get(id(node))
        if r is None:
            r = False
            stack = list(node.body)
            while stack:
                n = stack.pop()
                if isinstance(n, (ast.Yield, ast.YieldFrom)):
                    r = True
                    break
                if isinstance(n, (ast.FunctionDef, ast.Lambda, ast.ClassDef)):
                    continue
                stack.extend(ast.iter_child_nodes(n))
            self._gen_cache[id(node)] = r
        return r

    def run_generator(self, fn, fr):
        """eager generator: collects yielded values into a list (only for simple, finite generators)"""
        out = []
        fr.locals['$yield'] = out
        try:
            self.exec_block(fn.node.body, fr)
        except _Return:
            pass
        return VList(out)

    def e_Yield(self, e, f):
        fr = f
        while fr is not None and '$yield' not in fr.locals and '$at_yield' not in fr.locals:
            fr = fr.closure
        if fr is not None and '$at_yield' in fr.locals:
            return fr.locals['$at_yield'](None if e.value is None else self.eval(e.value, f))
        fr = f
        while '$yield' not in fr.locals:
            fr = fr.closure
            if fr is None:
                raise Unsupported('yield outside generator')
        fr.locals['$yield'].append(None if e.value is None else self.eval(e.value, f))
        return None

    def e_YieldFrom(self, e, f):
        """`yield from it` in an eagerly collected generator: every item of `it` is yielded in order"""
        fr = f
        while '$yield' not in fr.locals:
            fr = fr.closure
            if fr is None:
                raise Unsupported('yield from outside generator')
        for item in self.iterate(self.eval(e.value, f)):
            fr.locals['$yield'].append(item)
        return None

    def instantiate(self, cls, args, kwargs):
        new, owner = cls.lookup('__new__')
        if new is not MISSING and not (isinstance(new, Builtin) and new.name == 'object.__new__'):
            fnew = new.func if isinstance(new, VStaticMethod) else new
            obj = self.call(fnew, [cls] + list(args), kwargs)
            if not (isinstance(obj, VObj) and obj.cls.issub(cls)):
                return obj
        else:
            obj = self.B.new_object(self, cls)
        init, owner = cls.lookup('__init__')
        if init is not MISSING:
            self.call(init, [obj] + list(args), kwargs)
        return obj

    # ------------------------------------------------------------------ attribute access
    def find_method(self, obj, name):
        """bound special method looked up on the type (None if absent)"""
        if isinstance(obj, VObj):
            v, owner = obj.cls.lookup(name)
            if v is MISSING:
                return None
            return self.bind(v, obj, obj.cls)
        return None

    def bind(self, v, obj, cls):
        if isinstance(v, (VFunc, Builtin)):
            if isinstance(v, Builtin) and not getattr(v, 'is_method', False):
                return v
            return BoundMethod(obj, v)
        if isinstance(v, VClassMethod):
            return BoundMethod(cls, v.func)
        if isinstance(v, VStaticMethod):
            return v.func
        if isinstance(v, VProperty):
            return self.call(v.fget, [obj], {})
        if isinstance(v, VObj):
            g, _ = v.cls.lookup('__get__')
            if g is not MISSING:
                return self.call(g, [v, obj, cls], {})
        return v

    def is_data_descriptor(self, v):
        if isinstance(v, VProperty):
            return True
        if isinstance(v, VObj):
            s, _ = v.cls.lookup('__set__')
            if s is not MISSING:
                return True
            d, _ = v.cls.lookup('__delete__')
            return d is not MISSING
        return False

    def getattr(self, obj, name, default=MISSING):
        r = self._getattr(obj, name)
        if r is MISSING and isinstance(obj, VObj) and getattr(obj, 'pending_init', None) is not None:
            # an object a contract built field by field: private state the real constructor would have set as well (a cache, a counter
            # ...) is taken, on first need, from a scratch instance made by the real __init__ from the same values
            complete = obj.pending_init
            obj.pending_init = None
            complete(self, obj)
            r = self._getattr(obj, name)
        if r is MISSING:
            if default is not MISSING:
                return default
            self.throw('AttributeError', f'{self.type_name(obj)!r} object has no attribute {name!r}')
        return r

    def type_name(self, obj):
        if isinstance(obj, VObj):
            return obj.cls.name
        if isinstance(obj, VClass):
            return 'type'
        return self.B.host_type_name(obj)

    def _getattr(self, obj, name):
        if isinstance(obj, VObj):
            cls = obj.cls
            if name == '__class__':
                return cls
            if name == '__dict__':
                return obj.fields
            cv, owner = cls.lookup(name)
            if cv is not MISSING and self.is_data_descriptor(cv):
                return self.bind(cv, obj, cls)
            self.resolve_maybe(obj.fields, name)
            if name in obj.fields.d:
                return obj.fields.d[name]
            if cv is not MISSING:
                return self.bind(cv, obj, cls)
            ga, _ = cls.lookup('__getattr__')
            if ga is not MISSING:
                return self.call(ga, [obj, name], {})
            return MISSING
        if isinstance(obj, VClass):
            if name == '__name__':
                return obj.name
            if name == '__mro__':
                return tuple(obj.mro)
            if name == '__qualname__':
                return obj.name
            if name == '__module__':
                return obj.module
            if name == '__dict__':
                return VDict(obj.ns)
            cv, owner = obj.lookup(name)
            if cv is MISSING:
                return MISSING
            if isinstance(cv, VClassMethod):
                return BoundMethod(obj, cv.func)
            if isinstance(cv, VStaticMethod):
                return cv.func
            if isinstance(cv, VObj):
                g, _ = cv.cls.lookup('__get__')
                if g is not MISSING:
                    return self.call(g, [cv, None, obj], {})
            return cv
        if isinstance(obj, ModuleNS):
            if name in obj.ns:
                return obj.ns[name]
            # submodule
            sub = obj.name + '.' + name
            try:
                return self.import_module(sub)
            except Unsupported:
                if obj.name in self.ext_modules and not isinstance(self.ext_modules[obj.name], str):
                    raise Unsupported(f'{obj.name}.{name} is not modelled')
                return MISSING
        if isinstance(obj, VFunc):
            if name == '__name__':
                return obj.name
            if name == '__doc__':
                return obj.attrs.get('__doc__', ast.get_docstring(obj.node) if not isinstance(obj.node, ast.Lambda) else None)
            if name == '__func__':
                return MISSING
            return obj.attrs.get(name, MISSING)
        if isinstance(obj, BoundMethod):
            if name == '__func__':
                return obj.func
            if name == '__self__':
                return obj.self_
            return self._getattr(obj.func, name)
        return self.B.host_getattr(self, obj, name)

    def setattr(self, obj, name, v):
        if isinstance(obj, VObj):
            cv, owner = obj.cls.lookup(name)
            if cv is not MISSING:
                if isinstance(cv, VProperty):
                    if cv.fset is None:
                        self.throw('AttributeError', f"property {name!r} has no setter")
                    self.call(cv.fset, [obj, v], {})
                    return
                if isinstance(cv, VObj):
                    s, _ = cv.cls.lookup('__set__')
                    if s is not MISSING:
                        self.call(s, [cv, obj, v], {})
                        return
            sa, _ = obj.cls.lookup('__setattr__')
            if sa is not MISSING and not isinstance(sa, Builtin):
                self.call(sa, [obj, name, v], {})
                return
            self.write(obj.fields, f'attribute {name!r}', key=name)
            obj.fields.d[name] = v
            obj.fields.maybe.pop(name, None)
            return
        if isinstance(obj, VClass):
            self.ctx.event('frame', target=f'class attribute {obj.name}.{name}', where='setattr')
            obj.ns[name] = v
            return
        if isinstance(obj, VFunc):
            obj.attrs[name] = v
            return
        if isinstance(obj, ModuleNS):
            self.ctx.event('frame', target=f'module attribute {obj.name}.{name}', where='setattr')
            obj.ns[name] = v
            return
        self.B.host_setattr(self, obj, name, v)

    def delattr(self, obj, name):
        if isinstance(obj, VObj):
            cv, owner = obj.cls.lookup(name)
            if cv is not MISSING and isinstance(cv, VObj):
                d, _ = cv.cls.lookup('__delete__')
                if d is not MISSING:
                    self.call(d, [cv, obj], {})
                    return
            if isinstance(cv, VProperty):
                if cv.fdel is None:
                    self.throw('AttributeError', f"property {name!r} has no deleter")
                self.call(cv.fdel, [obj], {})
                return
            self.resolve_maybe(obj.fields, name)
            if name not in obj.fields.d:
                self.throw('AttributeError', name)
            self.write(obj.fields, f'del attribute {name!r}', key=name)
            del obj.fields.d[name]
            return
        raise Unsupported('delattr')

    def write(self, target, what, key=None):
        """record a write to a pre-existing (old) object: a frame event.  Writes to instance attributes that are not part
        of the object's public state (its `_params`, meta, visual) are recorded as `cache` writes: they cannot by themselves
        break "inputs are left unchanged" and are judged by their observable effect instead"""
        if self.loading:
            return        # module initialisation (e.g. registry registration at import), not an effect of the operation
        if getattr(target, 'old', False):
            kind = 'frame'
            owner = getattr(target, 'owner', None)
            if owner is not None and key is not None and isinstance(owner, VObj) and not owner.static:
                pv, _ = owner.cls.lookup('_params')
                if pv is not MISSING and isinstance(pv, tuple):
                    public = set(pv) | {'meta', 'visual'}
                    if key not in public:
                        kind = 'cache_write'
            self.ctx.event(kind, target=self.describe(target), where=what,
                           static=getattr(target, 'static', False), pc=list(self.ctx.pc))

    def describe(self, target):
        lab = getattr(target, 'label', None)
        if lab:
            return lab
        return repr(target)[:80]

    def resolve_maybe(self, d, key):
        if d.maybe and key in d.maybe:
            present, value = d.maybe.pop(key)
            if self.ctx.branch(zbool(present)):
                d.d[key] = value

    def resolve_all(self, d):
        for k in list(d.maybe):
            self.resolve_maybe(d, k)

    # ------------------------------------------------------------------ generic protocols (delegated)
    def truth(self, v):
        if v is None or isinstance(v, (bool, int, float, str, tuple, Fraction)):
            return bool(v)
        if isinstance(v, Sym):
            return self.ctx.branch(zbool(v))
        return self.B.truth(self, v)

    def iterate(self, v, lazy_ok=False):
        return self.B.iterate(self, v, lazy_ok)

    def dict_items(self, v):
        return self.B.dict_items(self, v)

    def getitem(self, o, k):
        return self.B.getitem(self, o, k)

    def setitem(self, o, k, v):
        return self.B.setitem(self, o, k, v)

    def delitem(self, o, k):
        return self.B.delitem(self, o, k)

    def contains(self, container, item):
        return self.B.contains(self, container, item)

    def binop(self, op, a, b, inplace=False):
        return self.B.binop(self, op, a, b, inplace)

    def compare(self, op, a, b):
        return self.B.compare(self, op, a, b)
